// Concrete replay of F-02 (C03): `key STRING UNIQUE` has NUMERIC affinity, so keys that look like numbers
// are rewritten on insert and distinct keys ("1", "01", "1.0") collapse into one row.
#include "llbuild/Core/BuildDB.h"
#include "llbuild/Core/BuildEngine.h"
#include "llvm/ADT/StringMap.h"
#include <cstdio>
#include <unistd.h>
using namespace llbuild; using namespace llbuild::core;
struct Del : BuildDBDelegate {
  llvm::StringMap<KeyID> table;
  const KeyID getKeyID(const KeyType& key) override {
    auto it = table.insert(std::make_pair(key.str(), KeyID::novalue())).first; return KeyID(it->getKey().data()); }
  KeyType getKeyForID(const KeyID key) override {
    return llvm::StringMapEntry<KeyID>::GetStringMapEntryFromKeyData((const char*)(uintptr_t)key).getKey(); }
};
struct R : Rule { R(const KeyType& k) : Rule(k) {} Task* createTask(BuildEngine&) override { return nullptr; }
  bool isResultValid(BuildEngine&, const ValueType&) override { return true; } };
int main() {
  const char* path = "/tmp/c03_affinity.db"; unlink(path);
  std::string err; int bad = 0;
  {
    Del d; auto db = createSQLiteBuildDB(path, 1, true, &err); db->attachDelegate(&d);
    if (!db->buildStarted(&err)) { printf("start: %s\n", err.c_str()); return 2; }
    const char* keys[] = { "1", "01", "1.0", "1e2", " 7", "abc" };
    for (int i = 0; i < 6; ++i) {
      Result r; r.value = { uint8_t('A' + i) }; r.builtAt = r.computedAt = 1; R rule(keys[i]);
      if (!db->setRuleResult(d.getKeyID(keys[i]), rule, r, &err)) printf("set %s: %s\n", keys[i], err.c_str());
    }
    db->buildComplete();
  }
  {
    Del d; auto db = createSQLiteBuildDB(path, 1, true, &err); db->attachDelegate(&d);
    db->buildStarted(&err);
    const char* keys[] = { "1", "01", "1.0", "1e2", " 7", "abc" };
    for (int i = 0; i < 6; ++i) {
      Result r; bool found = db->lookupRuleResult(d.getKeyID(keys[i]), keys[i], &r, &err);
      char got = found && !r.value.empty() ? r.value[0] : '-';
      printf("key %-5s stored %c read back %c%s\n", keys[i], 'A' + i, got, got == 'A' + i ? "" : "   <-- WRONG");
      if (got != 'A' + i) ++bad;
    }
    std::vector<KeyType> ks; db->getKeys(ks, &err); printf("keys in db:"); for (auto& k : ks) printf(" [%s]", k.c_str()); printf("\n");
    db->buildComplete();
  }
  unlink(path);
  return bad ? 1 : 0;
}
