// Concrete replay of F-01 (C05/C01): a build cancelled while a rule is in progress leaves that rule with
// its old builtAt and a truncated dependency list; the next build on the same engine returns a stale value.
#include "llbuild/Core/BuildEngine.h"
#include "llbuild/Basic/ExecutionQueue.h"
#include <cstdio>
#include <cstdlib>
using namespace llbuild; using namespace llbuild::core;
static int a = 1, b = 10; static BuildEngine* E; static bool cancelInR = false;
static ValueType V(int v) { return ValueType{ uint8_t(v), uint8_t(v >> 8), 0, 0 }; }
static int I(const ValueType& v) { return v.empty() ? -1 : v[0] | (v[1] << 8); }
struct D : BuildEngineDelegate, basic::ExecutionQueueDelegate {
  std::unique_ptr<Rule> lookupRule(const KeyType&) override { abort(); }
  void cycleDetected(const std::vector<Rule*>&) override { abort(); }
  void error(const Twine& m) override { fprintf(stderr, "error: %s\n", m.str().c_str()); }
  void processStarted(basic::ProcessContext*, basic::ProcessHandle, llbuild_pid_t) override {}
  void processHadError(basic::ProcessContext*, basic::ProcessHandle, const Twine&) override {}
  void processHadOutput(basic::ProcessContext*, basic::ProcessHandle, StringRef) override {}
  void processFinished(basic::ProcessContext*, basic::ProcessHandle, const basic::ProcessResult&) override {}
  void queueJobStarted(basic::JobDescriptor*) override {}
  void queueJobFinished(basic::JobDescriptor*) override {}
  std::unique_ptr<basic::ExecutionQueue> createExecutionQueue() override { return createSerialQueue(*this, nullptr); }
};
struct LeafTask : Task { int* p; LeafTask(int* p) : p(p) {}
  void start(TaskInterface) override {} void provideValue(TaskInterface, uintptr_t, const KeyType&, const ValueType&) override {}
  void inputsAvailable(TaskInterface ti) override { ti.complete(V(*p)); } };
struct LeafRule : Rule { int* p; LeafRule(const char* k, int* p) : Rule(k), p(p) {}
  Task* createTask(BuildEngine&) override { return new LeafTask(p); }
  bool isResultValid(BuildEngine&, const ValueType&) override { return false; } };   // external state: always re-checked
struct RTask : Task { int va = 0, vb = 0; static int runs;
  void start(TaskInterface ti) override { ti.request("A", 0); }
  void provideValue(TaskInterface ti, uintptr_t id, const KeyType&, const ValueType& v) override {
    if (id == 0) { va = I(v); if (cancelInR) { E->cancelBuild(); } ti.request("B", 1); } else vb = I(v); }
  void inputsAvailable(TaskInterface ti) override { ++runs; ti.complete(V(va + vb)); } };
int RTask::runs = 0;
struct RRule : Rule { RRule() : Rule("R") {} Task* createTask(BuildEngine&) override { return new RTask; }
  bool isResultValid(BuildEngine&, const ValueType&) override { return true; } };
int main() {
  D d; BuildEngine e(d); E = &e;
  e.addRule(std::unique_ptr<Rule>(new LeafRule("A", &a))); e.addRule(std::unique_ptr<Rule>(new LeafRule("B", &b)));
  e.addRule(std::unique_ptr<Rule>(new RRule));
  printf("build1 = %d (expect 11)\n", I(e.build("R")));
  b = 20; cancelInR = true;
  printf("build2 (cancelled) = %d (expect -1)\n", I(e.build("R")));
  cancelInR = false; e.resetForBuild(); int before = RTask::runs;
  int r = I(e.build("R"));
  printf("build3 = %d (clean build gives 21), R executed %d time(s)\n", r, RTask::runs - before);
  return r == 21 ? 0 : 1;
}
