// Demonstration for property C03 (database transparency).
//
// Runs the same four-build history twice:
//   (a) in ONE engine attached to a database, and
//   (b) with a fresh engine + fresh database connection for every build
//       (i.e. a "process restart" at every build boundary),
// and checks that both perform the same rule executions and return the same
// results.
//
// History (graph: top <- [mid, gate], mid <- [in]):
//   build 1: in=1                       -> everything runs, succeeds
//   build 2: in=2, gate cancels build   -> in, mid complete (and are recorded),
//                                          then the build is cancelled (FAILS)
//   build 3: in=3                       -> in changed again: mid and top MUST
//                                          rerun, top == (3*10)+7
//   build 4: nothing changed            -> null build
//
// Exit status 0 when both modes agree (and give the expected value),
// non-zero otherwise.

#include "llbuild/Core/BuildEngine.h"

#include "llbuild/Basic/ExecutionQueue.h"
#include "llbuild/Core/BuildDB.h"

#include "llvm/ADT/SmallString.h"
#include "llvm/Support/FileSystem.h"

#include <cassert>
#include <cstdio>
#include <cstdlib>
#include <functional>
#include <string>
#include <vector>

using namespace llbuild;
using namespace llbuild::core;

namespace {

class Delegate : public core::BuildEngineDelegate,
                 public basic::ExecutionQueueDelegate {
public:
  std::vector<std::string> errors;

private:
  std::unique_ptr<core::Rule> lookupRule(const core::KeyType& key) override {
    fprintf(stderr, "error: unexpected rule lookup for \"%s\"\n", key.c_str());
    abort();
    return nullptr;
  }
  void cycleDetected(const std::vector<core::Rule*>&) override {}
  bool shouldResolveCycle(const std::vector<Rule*>&, Rule*,
                          Rule::CycleAction) override { return false; }
  void error(const Twine& message) override {
    errors.push_back(message.str());
    fprintf(stderr, "engine error: %s\n", message.str().c_str());
  }

  void processStarted(basic::ProcessContext*, basic::ProcessHandle,
                      llbuild_pid_t) override {}
  void processHadError(basic::ProcessContext*, basic::ProcessHandle,
                       const Twine&) override {}
  void processHadOutput(basic::ProcessContext*, basic::ProcessHandle,
                        StringRef) override {}
  void processFinished(basic::ProcessContext*, basic::ProcessHandle,
                       const basic::ProcessResult&) override {}
  void queueJobStarted(basic::JobDescriptor*) override {}
  void queueJobFinished(basic::JobDescriptor*) override {}

  std::unique_ptr<basic::ExecutionQueue> createExecutionQueue() override {
    return createSerialQueue(*this, nullptr);
  }
};

int32_t intFromValue(const core::ValueType& value) {
  if (value.size() != 4) return -1;
  return ((value[0] << 0) | (value[1] << 8) | (value[2] << 16) |
          (value[3] << 24));
}
core::ValueType intToValue(int32_t value) {
  std::vector<uint8_t> result(4);
  result[0] = (value >> 0) & 0xFF;
  result[1] = (value >> 8) & 0xFF;
  result[2] = (value >> 16) & 0xFF;
  result[3] = (value >> 24) & 0xFF;
  return result;
}

class SimpleTask : public Task {
public:
  typedef std::function<int(const std::vector<int>&)> ComputeFnType;

private:
  std::vector<KeyType> inputs;
  std::vector<int> inputValues;
  ComputeFnType compute;

public:
  SimpleTask(std::vector<KeyType> inputs, ComputeFnType compute)
      : inputs(inputs), compute(compute) {}

  void start(TaskInterface ti) override {
    inputValues.resize(inputs.size());
    for (int i = 0, e = inputs.size(); i != e; ++i)
      ti.request(inputs[i], i);
  }
  void provideValue(TaskInterface, uintptr_t inputID, const KeyType&,
                    const ValueType& value) override {
    inputValues[inputID] = intFromValue(value);
  }
  void inputsAvailable(TaskInterface ti) override {
    ti.complete(intToValue(compute(inputValues)));
  }
};

class SimpleRule : public Rule {
public:
  typedef std::function<bool(const ValueType& value)> ValidFnType;

private:
  SimpleTask::ComputeFnType compute;
  std::vector<KeyType> inputs;
  ValidFnType valid;

public:
  SimpleRule(const KeyType& key, const std::vector<KeyType>& inputs,
             SimpleTask::ComputeFnType compute, ValidFnType valid = nullptr)
      : Rule(key), compute(compute), inputs(inputs), valid(valid) {}

  Task* createTask(BuildEngine&) override {
    return new SimpleTask(inputs, compute);
  }
  bool isResultValid(BuildEngine&, const ValueType& value) override {
    if (!valid) return true;
    return valid(value);
  }
};

// The "outside world" the rules observe.
struct World {
  int in = 0;          // content of the input
  int gateGen = 0;     // generation of the gate (changing it reruns the gate)
  bool gateFails = false; // when set, the gate cancels the build when it runs
};

struct BuildRecord {
  std::vector<std::string> executed;
  int result; // -1 == build failed / returned the empty value
};

struct Session {
  Delegate delegate;
  std::unique_ptr<core::BuildEngine> engine;
};

void openSession(Session& s, const std::string& dbPath, World& world,
                 std::vector<std::string>& executed) {
  s.engine.reset(new core::BuildEngine(s.delegate));
  std::string error;
  auto db = createSQLiteBuildDB(dbPath, /*clientSchemaVersion=*/1,
                                /*recreateUnmatchedVersion=*/true, &error);
  if (!db || !s.engine->attachDB(std::move(db), &error)) {
    fprintf(stderr, "unable to attach database: %s\n", error.c_str());
    exit(2);
  }
  core::BuildEngine* engine = s.engine.get();

  engine->addRule(std::unique_ptr<core::Rule>(new SimpleRule(
      "in", {},
      [&world, &executed](const std::vector<int>&) {
        executed.push_back("in");
        return world.in;
      },
      [&world](const ValueType& v) { return intFromValue(v) == world.in; })));
  engine->addRule(std::unique_ptr<core::Rule>(new SimpleRule(
      "mid", {"in"}, [&executed](const std::vector<int>& inputs) {
        executed.push_back("mid");
        return inputs[0] * 10;
      })));
  engine->addRule(std::unique_ptr<core::Rule>(new SimpleRule(
      "gate", {},
      [&world, &executed, engine](const std::vector<int>&) {
        executed.push_back("gate");
        if (world.gateFails)
          engine->cancelBuild(); // e.g. a failing command stops the build
        return world.gateGen;
      },
      [&world](const ValueType& v) {
        return intFromValue(v) == world.gateGen;
      })));
  engine->addRule(std::unique_ptr<core::Rule>(new SimpleRule(
      "top", {"mid", "gate"}, [&executed](const std::vector<int>& inputs) {
        executed.push_back("top");
        return inputs[0] + 7;
      })));
}

std::vector<BuildRecord> runHistory(bool restartBetweenBuilds) {
  llvm::SmallString<256> dbPath;
  auto ec = llvm::sys::fs::createTemporaryFile("c03-demo", "db", dbPath);
  if (ec) {
    fprintf(stderr, "cannot create temp file\n");
    exit(2);
  }

  World world;
  std::vector<std::string> executed;
  std::vector<BuildRecord> records;
  std::unique_ptr<Session> session;

  struct Step { int in; int gateGen; bool gateFails; };
  const Step steps[] = {
    {1, 1, false},  // build 1: clean build
    {2, 2, true},   // build 2: input edited; build is cancelled part-way
    {3, 2, false},  // build 3: input edited again
    {3, 2, false},  // build 4: null build
  };

  for (const Step& step : steps) {
    world.in = step.in;
    world.gateGen = step.gateGen;
    world.gateFails = step.gateFails;

    if (!session || restartBetweenBuilds) {
      session.reset();            // closes engine + database connection
      session.reset(new Session);
      openSession(*session, dbPath.str(), world, executed);
    } else {
      session->engine->resetForBuild();
    }

    executed.clear();
    const ValueType& v = session->engine->build("top");
    records.push_back({executed, v.empty() ? -1 : intFromValue(v)});
  }

  session.reset();
  llvm::sys::fs::remove(dbPath.str());
  return records;
}

std::string describe(const BuildRecord& r) {
  std::string s = "executed=[";
  for (size_t i = 0; i != r.executed.size(); ++i)
    s += (i ? "," : "") + r.executed[i];
  s += "] result=" + std::to_string(r.result);
  return s;
}

} // namespace

int main() {
  auto single = runHistory(/*restartBetweenBuilds=*/false);
  auto split = runHistory(/*restartBetweenBuilds=*/true);

  int failures = 0;
  for (size_t i = 0; i != single.size(); ++i) {
    bool same = single[i].executed == split[i].executed &&
                single[i].result == split[i].result;
    printf("build %zu:\n  one engine      : %s\n  restart per build: %s\n  => %s\n",
           i + 1, describe(single[i]).c_str(), describe(split[i]).c_str(),
           same ? "same" : "DIFFERENT");
    if (!same) ++failures;
  }

  // Independent of the comparison, build 3 must observe in == 3.
  const int expected = 3 * 10 + 7;
  if (split[2].result != expected) {
    printf("build 3 after restart returned %d, expected %d (stale result)\n",
           split[2].result, expected);
    ++failures;
  }
  if (single[2].result != expected) {
    printf("build 3 in one engine returned %d, expected %d\n",
           single[2].result, expected);
    ++failures;
  }

  if (failures) {
    printf("FAIL: builds split across restarts diverge from a single engine\n");
    return 1;
  }
  printf("PASS: restarting at every build boundary is transparent\n");
  return 0;
}
