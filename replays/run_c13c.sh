#!/bin/bash
# replay of the C13 finding F-27 (existing empty file with epoch mtime equals the missing record in device-agnostic mode)
T=$(mktemp -d /tmp/c13creplay.XXXX)
clang++-14 -g -std=c++14 -fno-rtti -fno-exceptions -I/repo/include -I/repo/lib/llvm -include /repo/include/libstdc++14-workaround.h \
  /verif/replays/c13_epoch_empty.cc /repo/lib/Basic/FileInfo.cpp /repo/lib/Basic/FileSystem.cpp /repo/_build/lib/libllbuildBasic.a \
  /repo/_build/lib/libllvmSupport.a /repo/_build/lib/libLLVMDemangle.a -lpthread -lcurses -o $T/drv 2>&1 | grep -E "error" | head
$T/drv; echo "exit=$?"; rm -rf $T
