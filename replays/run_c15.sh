#!/bin/bash
T=$(mktemp -d /tmp/c15replay.XXXX)
clang++-14 -g -DNDEBUG -std=c++14 -fno-rtti -fno-exceptions -I/repo/include -I/repo/lib/llvm -include /repo/include/libstdc++14-workaround.h \
  /verif/replays/c15_stringlist_nul.cc /repo/_build/lib/libllbuildBuildSystem.a /repo/_build/lib/libllbuildCore.a /repo/_build/lib/libllbuildBasic.a \
  /repo/_build/lib/libllvmSupport.a /repo/_build/lib/libLLVMDemangle.a -lsqlite3 -lpthread -lcurses -o $T/drv 2>&1 | grep -E "error" | head
$T/drv; echo "exit=$?"; rm -rf $T
