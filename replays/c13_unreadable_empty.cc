// C13 replay: in checksum-only mode an existing, empty file whose content cannot be read (mode 000, seen by an unprivileged user)
// compares EQUAL to the record of a missing path — existence differs, the records do not.
#include "llbuild/Basic/FileInfo.h"
#include "llbuild/Basic/FileSystem.h"
#include <sys/stat.h>
#include <fcntl.h>
#include <unistd.h>
#include <cstdio>
#include <cstdlib>
#include <cstring>
#include <string>
using namespace llbuild::basic;
int main() {
  char tmpl[] = "/tmp/c13emptyXXXXXX";
  std::string dir = mkdtemp(tmpl);
  chmod(dir.c_str(), 0755);
  std::string f = dir + "/stamp", missing = dir + "/nothing-here";
  int fd = open(f.c_str(), O_CREAT | O_WRONLY, 0000); close(fd); chmod(f.c_str(), 0000);
  if (geteuid() == 0 && seteuid(65534) != 0) { perror("seteuid"); return 2; }   // root reads everything: look as `nobody`
  auto fs = ChecksumOnlyFileSystem::from(createLocalFileSystem());
  FileInfo e = fs->getFileInfo(f), m = fs->getFileInfo(missing);
  printf("existing file: isMissing=%d size=%llu checksum[0]=%u   missing path: isMissing=%d\n", (int)e.isMissing(), (unsigned long long)e.size, e.checksum.bytes[0], (int)m.isMissing());
  bool equal = (e == m);
  printf("records compare %s\n", equal ? "EQUAL  (existence change invisible)" : "unequal");
  if (seteuid(0) != 0) {}
  unlink(f.c_str()); rmdir(dir.c_str());
  return equal ? 1 : 0;
}
