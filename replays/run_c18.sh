#!/bin/bash
# Replay for F-24 (C18): a command that takes a phony alias (no file of that name) as an explicit input re-runs in every build.
T=$(mktemp -d /tmp/c18replay.XXXX); L=${1:-/repo/_build/bin/llbuild}
echo hi > $T/a.txt
cat > $T/build.ninja <<'Y'
rule cp
  command = cp a.txt $out && echo ran >> log.txt
build alias: phony a.txt
build out.txt: cp alias
Y
cd $T; for i in 1 2 3; do $L ninja build >/dev/null 2>&1; done; n=$(wc -l < log.txt); cd /; rm -rf $T
echo "the cp command ran $n time(s) in three consecutive builds with no change (expected 1)"
[ "$n" = 1 ]
