#!/bin/bash
# Replay for F-21 (C12): a node declared `type: directory` (even with the conventional trailing slash in its name) must be a directory-tree input.
# Before the fix the second build does not re-run the consumer after a file beneath the directory changed.
T=$(mktemp -d /tmp/c12replay.XXXX); L=${1:-/repo/_build/bin/llbuild}
mkdir -p $T/src/sub; echo one > $T/src/sub/a.txt
cat > $T/build.llbuild <<'Y'
client:
  name: basic
targets:
  "": ["out.txt"]
nodes:
  "src/":
    type: directory
commands:
  C.gen:
    tool: shell
    inputs: ["src/"]
    outputs: ["out.txt"]
    args: cat src/sub/a.txt > out.txt
Y
cd $T; $L buildsystem build --serial -f build.llbuild >/dev/null 2>&1; sleep 1.1; echo two-longer > src/sub/a.txt
$L buildsystem build --serial -f build.llbuild >/dev/null 2>&1
got=$(cat out.txt); cd /; rm -rf $T
if [ "$got" = "two-longer" ]; then echo "OK: consumer re-ran after a change beneath the directory"; exit 0; else echo "STALE: out.txt is '$got' after src/sub/a.txt changed"; exit 1; fi
