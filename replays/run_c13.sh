#!/bin/bash
T=$(mktemp -d /tmp/c13replay.XXXX)
clang++-14 -g -std=c++14 -fno-rtti -fno-exceptions -I/repo/include -include /repo/include/libstdc++14-workaround.h \
  /verif/replays/c13_md5_shadow.cc /repo/lib/Basic/FileInfo.cpp /repo/_build/lib/libllbuildBasic.a \
  /repo/_build/lib/libllvmSupport.a /repo/_build/lib/libLLVMDemangle.a -lpthread -lcurses -o $T/drv 2>&1 | grep -E "error" | head
$T/drv; echo "exit=$?"; rm -rf $T
