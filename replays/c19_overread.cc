// Concrete replay of the C19 findings (F-09..F-12) against the real parser sources.
// Built with ASan by replays/run_c19.sh; every input lives in an exact-size heap buffer.
#include "llbuild/Core/MakefileDepsParser.h"
#include "llbuild/Core/DependencyInfoParser.h"
#include "llbuild/Ninja/Lexer.h"
#include <cstdio>
#include <cstring>
#include <cstdlib>
using namespace llbuild;
struct MA : core::MakefileDepsParser::ParseActions {
  void error(StringRef, uint64_t) override {}
  void actOnRuleDependency(StringRef, StringRef) override {}
  void actOnRuleStart(StringRef, StringRef) override {}
  void actOnRuleEnd() override {}
};
struct DA : core::DependencyInfoParser::ParseActions {
  void error(const char* m, uint64_t) override { printf("  depinfo error: %s\n", m); }
  void actOnVersion(StringRef) override {}
  void actOnInput(StringRef) override {}
  void actOnOutput(StringRef) override {}
  void actOnMissing(StringRef) override {}
};
static char* exact(const char* s, size_t n) { char* p = (char*)malloc(n); memcpy(p, s, n); return p; }
int main(int argc, char** argv) {
  const char* which = argc > 1 ? argv[1] : "";
  if (!strcmp(which, "lexer-dollar")) {          // F-10: '$' as the last byte
    char* b = exact("a $", 3); ninja::Lexer l(StringRef(b, 3)); ninja::Token t;
    do { l.lex(t); } while (t.tokenKind != ninja::Token::Kind::EndOfFile);
  } else if (!strcmp(which, "lexer-ff")) {       // F-09: byte 0xFF read as EOF
    char* b = exact("a\xff" "b\n", 4); ninja::Lexer l(StringRef(b, 4)); ninja::Token t; int n = 0; size_t covered = 0;
    do { l.lex(t); ++n; covered = (t.start - b) + t.length; } while (t.tokenKind != ninja::Token::Kind::EndOfFile && n < 20);
    printf("  tokens=%d, EOF reported at offset %zu of 4\n", n, covered);
    return covered == 4 ? 0 : 3;
  } else if (!strcmp(which, "makefile-backslash")) { // F-11: trailing backslash
    char* b = exact("a: b\\", 5); MA a; core::MakefileDepsParser(StringRef(b, 5), a, false).parse();
  } else if (!strcmp(which, "depinfo-nul")) {    // F-12: opcode byte is the final NUL
    char* b = exact("\0", 1); DA a; core::DependencyInfoParser(StringRef(b, 1), a).parse();
  }
  return 0;
}
