#!/bin/bash
# usage: run_c19.sh [repo-root]   — builds the ASan driver from the given tree and runs the four inputs
R=${1:-/repo}; T=$(mktemp -d /tmp/c19replay.XXXX)
clang++-14 -g -fsanitize=address -std=c++14 -fno-rtti -fno-exceptions -I$R/include -include $R/include/libstdc++14-workaround.h \
  /verif/replays/c19_overread.cc $R/lib/Ninja/Lexer.cpp $R/lib/Core/MakefileDepsParser.cpp $R/lib/Core/DependencyInfoParser.cpp \
  /repo/_build/lib/libllvmSupport.a /repo/_build/lib/libLLVMDemangle.a -lpthread -lcurses -o $T/drv 2>&1 | grep -E "error" | head
for c in lexer-dollar lexer-ff makefile-backslash depinfo-nul; do
  echo "== $c"; ASAN_OPTIONS=detect_leaks=0 $T/drv $c 2>&1 | grep -E "ERROR|READ of|tokens=|depinfo error|#[0-3] " | head -6; echo "   exit=${PIPESTATUS[0]}"
done
rm -rf $T
